package sigh

import (
	"context"
	"fmt"
	"io"
	"strings"
	"time"

	client "github.com/aperturerobotics/bifrost/signaling/rpc/client"
	"github.com/aperturerobotics/util/backoff"
	"github.com/sirupsen/logrus"

	"verifh/sigfake"
	"verifh/vsync"
)

// E2E is a real relay with real signaling clients A and B (S3 harness).
type E2E struct {
	*World
	Ctx     context.Context
	Cancel  context.CancelFunc
	Clients map[string]*client.Client
	Relays  map[string]*sigfake.Relay
	Refs    map[string]*client.ClientPeerRef
	// OnTap, if set, sees every message put on a stream (label "<call>>srv" or
	// "srv><call>", rendered message): a hook for fault threads that must fire
	// when a particular message has been forwarded.
	OnTap func(label, desc string)
}

// NewE2E builds the relay and one client per named peer, contexts set.
func NewE2E(peers ...string) *E2E {
	w := NewWorld()
	e := &E2E{World: w, Clients: map[string]*client.Client{}, Relays: map[string]*sigfake.Relay{}, Refs: map[string]*client.ClientPeerRef{}}
	e.Ctx, e.Cancel = context.WithCancel(context.Background())
	le := logrus.New()
	le.SetOutput(io.Discard)
	for i, p := range peers {
		// distinct, incommensurate back-off per client: timers that expire at the
		// same virtual instant are ordered randomly by the synctest runtime.
		bo := &backoff.Backoff{BackoffKind: backoff.BackoffKind_BackoffKind_CONSTANT, Constant: &backoff.Constant{Interval: uint32(1000 + 371*i)}}
		r := &sigfake.Relay{Srv: w.Srv, ID: w.IDs[p], Name: strings.ToLower(p), Tap: e.tapE2E, Calls: w.Calls}
		c, err := client.NewClient(logrus.NewEntry(le), r, w.Keys[p].Priv, bo)
		if err != nil {
			panic(err)
		}
		c.SetContext(e.Ctx)
		e.Clients[p], e.Relays[p] = c, r
	}
	return e
}

func (e *E2E) tapE2E(label string, m any) {
	d := e.describe(m)
	vsync.Logf("%s %s", label, d)
	if e.OnTap != nil {
		e.OnTap(label, d)
	}
}

// Ref returns (creating if needed) the peer reference from -> to.
func (e *E2E) Ref(from, to string) *client.ClientPeerRef {
	k := from + ">" + to
	if r := e.Refs[k]; r != nil {
		return r
	}
	r := e.Clients[from].AddPeerRef(e.IDs[to])
	e.Refs[k] = r
	return r
}

// Send sends payload id from -> to and logs the outcome (ordered log).
func (e *E2E) Send(ctx context.Context, from, to, id string) {
	ref := e.Ref(from, to)
	vsync.LogOrdered("send-start %s>%s %s", from, to, id)
	_, err := ref.Send(ctx, []byte(id))
	if err == nil {
		vsync.LogOrdered("send-ok %s>%s %s", from, to, id)
	} else {
		vsync.LogOrdered("send-err %s>%s %s %v", from, to, id, err)
	}
}

// Recv receives one message at `at` from `from` and logs it (ordered log).
func (e *E2E) Recv(ctx context.Context, at, from string) {
	ref := e.Ref(at, from)
	m, err := ref.Recv(ctx)
	if err == nil {
		vsync.LogOrdered("recv %s<%s %s", at, from, string(m.GetSignedMsg().GetData()))
	} else {
		vsync.LogOrdered("recv-err %s<%s %v", at, from, err)
	}
}

// RecvOK is Recv that reports whether a message was received (false: the
// context ended).
func (e *E2E) RecvOK(ctx context.Context, at, from string) bool {
	ref := e.Ref(at, from)
	m, err := ref.Recv(ctx)
	if err == nil {
		vsync.LogOrdered("recv %s<%s %s", at, from, string(m.GetSignedMsg().GetData()))
		return true
	}
	vsync.LogOrdered("recv-err %s<%s %v", at, from, err)
	return false
}

// BreakSession fails the current Session stream of peer p's client (the
// server side sees a cancelled context, the client a stream error).
func (e *E2E) BreakSession(p string) {
	d := e.Relays[p].LastSession()
	if d == nil {
		vsync.Logf("fault: no session for %s", p)
		return
	}
	vsync.Logf("fault: break %s", d.Name)
	d.Cancel()
}

// BreakSessionSilently fails the current Session stream of peer p's client on
// the client side only: the client sees a stream error and retries, while the
// relay keeps the old call registered (it has not noticed), so the retry
// usurps it.
func (e *E2E) BreakSessionSilently(p string) {
	d := e.Relays[p].LastSession()
	if d == nil {
		vsync.Logf("fault: no session for %s", p)
		return
	}
	vsync.Logf("fault: silent break %s", d.Name)
	d.FailSilently(io.ErrUnexpectedEOF)
}

// Reattach releases and re-adds p's reference to q.
func (e *E2E) Reattach(p, q string) {
	k := p + ">" + q
	if r := e.Refs[k]; r != nil {
		vsync.Logf("fault: release %s", k)
		r.Release()
		delete(e.Refs, k)
	}
	e.Ref(p, q)
}

// Shutdown cancels the root context and lets everything unwind.
func (e *E2E) Shutdown() {
	e.Cancel()
	for _, c := range e.Clients {
		c.ClearContext()
	}
	vsync.Quiesce()
}

// CheckAckImpliesDelivered is the C21 oracle on an ordered log: every
// send-ok X>Y m is preceded by recv Y<X m.
func CheckAckImpliesDelivered(log []string) string {
	recvd := map[string]bool{}
	for _, l := range log {
		f := strings.Fields(l)
		if len(f) < 3 {
			continue
		}
		switch f[0] {
		case "recv":
			// recv Y<X m
			pq := strings.Split(f[1], "<")
			recvd[pq[1]+">"+pq[0]+" "+f[2]] = true
		case "send-ok":
			if !recvd[f[1]+" "+f[2]] {
				return fmt.Sprintf("V21:send-acknowledged-before-delivery %s %s", f[1], f[2])
			}
		}
	}
	return ""
}

var _ = time.Second
