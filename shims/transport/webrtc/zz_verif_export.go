//go:build verif

package webrtc

// VerifIsOfferer exposes the unexported role decision to the verification
// harness (property C26). Present only with -tags verif through an overlay.
func VerifIsOfferer(a, b string) bool { return isOfferer(a, b) }
