//go:build verif

package webrtc

import (
	"context"

	"github.com/pion/datachannel"
)

// VerifIsOfferer exposes the unexported role decision to the verification
// harness (property C26). Present only with -tags verif through an overlay.
func VerifIsOfferer(a, b string) bool { return isOfferer(a, b) }

// VerifSessionLink builds the session tracker of the transport for the given
// signaled peer and returns its role and a function that runs the tracker's
// link over the given (already open) data channel, exactly as the session does
// once the data channel opened.
func VerifSessionLink(w *WebRTC, signaledPeerID string) (offerer bool, run func(ctx context.Context, dc datachannel.ReadWriteCloser) error) {
	_, tkr := w.newSessionTracker(signaledPeerID)
	return tkr.offerer, tkr.executeLink
}
