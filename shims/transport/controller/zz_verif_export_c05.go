//go:build verif

package transport_controller

import (
	"sort"

	"github.com/aperturerobotics/bifrost/peer"
)

// VerifC05Dialer describes one link dialer of the controller (read-only
// snapshot for the C05 check: the dialer's key and the remote peer of the link
// it currently counts as its result, "" if none).
type VerifC05Dialer struct {
	PeerID     peer.ID
	Address    string
	HasLink    bool
	LinkRemote peer.ID
}

// VerifC05Dialers lists the controller's link dialers sorted by key.
func VerifC05Dialers(c *Controller) []VerifC05Dialer {
	var out []VerifC05Dialer
	for _, kd := range c.linkDialers.GetKeysWithData() {
		d := VerifC05Dialer{PeerID: kd.Key.peerID, Address: kd.Key.dialAddress}
		if l := kd.Data.lnk.GetValue(); l != nil {
			d.HasLink, d.LinkRemote = true, l.GetRemotePeer()
		}
		out = append(out, d)
	}
	sort.Slice(out, func(i, j int) bool {
		if out[i].PeerID != out[j].PeerID {
			return out[i].PeerID < out[j].PeerID
		}
		return out[i].Address < out[j].Address
	})
	return out
}
