//go:build verif

package transport_controller

import "io"

// VerifC07ReadHeader exposes readStreamEstablishHeader.
func VerifC07ReadHeader(r io.Reader) (*StreamEstablish, error) { return readStreamEstablishHeader(r) }

// VerifC07MarshalHeader exposes marshalStreamEstablishHeader.
func VerifC07MarshalHeader(msg *StreamEstablish) []byte { return marshalStreamEstablishHeader(msg) }

// VerifC07WriteHeader exposes writeStreamEstablishHeader.
func VerifC07WriteHeader(w io.Writer, msg *StreamEstablish) (int, error) {
	return writeStreamEstablishHeader(w, msg)
}

// VerifC07MaxHeader exposes the header size limit.
func VerifC07MaxHeader() uint64 { return streamEstablishMaxPacketSize }
