//go:build verif

package transport_controller

import (
	"github.com/aperturerobotics/bifrost/link"
	"github.com/aperturerobotics/bifrost/peer"
)

// VerifC06Tables returns a snapshot of the controller's private link tables
// (links by UUID, links by remote peer) and its current local peer id, taken
// under the controller lock. Read-only; used by the C04/C06 checks.
func VerifC06Tables(c *Controller) (byUUID map[uint64]link.Link, byPeer map[peer.ID][]link.Link, local peer.ID) {
	byUUID = make(map[uint64]link.Link)
	byPeer = make(map[peer.ID][]link.Link)
	c.bcast.HoldLock(func(broadcast func(), getWaitCh func() <-chan struct{}) {
		local = c.peerID
		for k, el := range c.links {
			byUUID[k] = el.lnk
		}
		for p, els := range c.linksByPeerID {
			lst := make([]link.Link, 0, len(els))
			for _, el := range els {
				lst = append(lst, el.lnk)
			}
			byPeer[p] = lst
		}
	})
	return
}

// VerifC06LinkOfMounted returns the link.Link underneath a MountedLink value
// produced by this controller (nil if the value is of another type).
func VerifC06LinkOfMounted(ml link.MountedLink) link.Link {
	if m, ok := ml.(*mountedLink); ok {
		return m.link
	}
	return nil
}
