//go:build verif

package transport_controller

import "io"

// VerifC40ReadStreamEstablishHeader exposes readStreamEstablishHeader.
func VerifC40ReadStreamEstablishHeader(r io.Reader) (*StreamEstablish, error) {
	return readStreamEstablishHeader(r)
}

// VerifC40MarshalStreamEstablishHeader exposes marshalStreamEstablishHeader.
func VerifC40MarshalStreamEstablishHeader(msg *StreamEstablish) []byte {
	return marshalStreamEstablishHeader(msg)
}

// VerifC40StreamEstablishMaxPacketSize exposes the configured header limit.
func VerifC40StreamEstablishMaxPacketSize() uint64 { return streamEstablishMaxPacketSize }
