//go:build verif

package p2ptls

import "crypto/tls"

// VerifCertificate returns the TLS certificate (DER chain + certificate key)
// that NewIdentity generated for this identity. Read-only; used by the C03
// check to obtain an honest certificate built by the repository's own code.
func VerifCertificate(i *Identity) tls.Certificate {
	return i.config.Certificates[0]
}
