//go:build verif

package link_solicit_controller

import (
	"context"
	"io"

	"github.com/aperturerobotics/bifrost/link"
	link_solicit "github.com/aperturerobotics/bifrost/link/solicit"
	stream_packet "github.com/aperturerobotics/bifrost/stream/packet"
)

// VerifC40MaxMessageSize exposes the configured control-stream message limit.
const VerifC40MaxMessageSize = maxMessageSize

// VerifC40RunControlStream registers ml as a tracked link (as addLink does,
// without starting a link routine), registers the given solicitations, and
// runs runControlStream over rwc on the calling goroutine until it returns.
// It returns the remote hashes last stored for the link and the number of
// matched hashes. The link and solicitations are removed again afterwards.
func VerifC40RunControlStream(ctx context.Context, c *Controller, ml link.MountedLink, dirs []link_solicit.SolicitProtocol, rwc io.ReadWriteCloser) (remote [][]byte, matched int) {
	uuid := ml.GetLinkUUID()
	localPeer, remotePeer := ml.GetLocalPeer(), ml.GetRemotePeer()
	ls := &linkState{
		le:           c.le.WithField("link-uuid", uuid),
		ml:           ml,
		sessionID:    link_solicit.ComputeSessionID(localPeer, remotePeer),
		localIsLower: localPeer < remotePeer,
		matched:      make(map[string]struct{}),
	}
	var states []*solicitState
	c.bcast.HoldLock(func(broadcast func(), _ func() <-chan struct{}) {
		c.links[uuid] = ls
		for _, d := range dirs {
			ss := &solicitState{dir: d}
			c.solicitations[ss] = struct{}{}
			states = append(states, ss)
		}
		broadcast()
	})
	defer c.bcast.HoldLock(func(broadcast func(), _ func() <-chan struct{}) {
		remote = ls.remoteHashes
		matched = len(ls.matched)
		delete(c.links, uuid)
		for _, ss := range states {
			delete(c.solicitations, ss)
		}
		broadcast()
	})
	sess := stream_packet.NewSession(rwc, maxMessageSize)
	c.runControlStream(ctx, ls, sess)
	return
}
