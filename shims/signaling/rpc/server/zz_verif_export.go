//go:build verif

package signaling_rpc_server

import (
	"fmt"
	"sort"
	"strings"
)

// VerifSessionState is a read-only view of one relay session.
type VerifSessionState struct {
	PeerA, PeerB string
	Seqno        uint64
	AttachedA    bool
	AttachedB    bool
	RecvA, RecvB uint64 // seqno of the pending message for that side (0 = none)
	RecvSentA    uint64
	RecvSentB    uint64
	HasRecvSentA bool
	HasRecvSentB bool
}

// VerifSnapshot returns the relay's private state. It is meant to be called at
// quiescence; it takes the server's lock so that the free-running race pass
// does not report the harness's own reads.
func (s *Server) VerifSnapshot() (peers map[string][]string, listening map[string]bool, sessions []VerifSessionState) {
	s.mtx.Lock()
	defer s.mtx.Unlock()
	peers = map[string][]string{}
	listening = map[string]bool{}
	for k, t := range s.peers {
		var w []string
		for p := range t.wantPeers {
			w = append(w, p)
		}
		sort.Strings(w)
		peers[k] = w
		listening[k] = t.listening
	}
	for k, t := range s.sessions {
		st := VerifSessionState{PeerA: k.peerA, PeerB: k.peerB, Seqno: t.seqno, AttachedA: t.peerA != nil, AttachedB: t.peerB != nil}
		if t.peerA != nil {
			if t.peerA.recv != nil {
				st.RecvA = t.peerA.recv.GetSeqno()
			}
			if t.peerA.recvSent != nil {
				st.RecvSentA, st.HasRecvSentA = *t.peerA.recvSent, true
			}
		}
		if t.peerB != nil {
			if t.peerB.recv != nil {
				st.RecvB = t.peerB.recv.GetSeqno()
			}
			if t.peerB.recvSent != nil {
				st.RecvSentB, st.HasRecvSentB = *t.peerB.recvSent, true
			}
		}
		sessions = append(sessions, st)
	}
	sort.Slice(sessions, func(i, j int) bool { return sessions[i].PeerA+sessions[i].PeerB < sessions[j].PeerA+sessions[j].PeerB })
	return
}

// VerifStateString renders the snapshot canonically.
func (s *Server) VerifStateString() string {
	p, l, ss := s.VerifSnapshot()
	var keys []string
	for k := range p {
		keys = append(keys, k)
	}
	sort.Strings(keys)
	var b strings.Builder
	for _, k := range keys {
		fmt.Fprintf(&b, "peer %s listening=%v want=%v;", k, l[k], p[k])
	}
	for _, st := range ss {
		fmt.Fprintf(&b, "sess %+v;", st)
	}
	return b.String()
}
