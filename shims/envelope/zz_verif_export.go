//go:build verif

package envelope

// VerifBuildGrantEncContext exposes buildGrantEncContext to the C18 harness,
// which needs it to play an attacker who re-encrypts a forged grant to a
// recipient's public key.
func VerifBuildGrantEncContext(envelopeID, context string, grantIndex int) string {
	return buildGrantEncContext(envelopeID, context, grantIndex)
}
