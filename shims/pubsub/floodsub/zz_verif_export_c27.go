//go:build verif

package floodsub

import (
	"fmt"
	"reflect"
	"runtime"
	"sort"
	"strings"
	"unsafe"

	"github.com/aperturerobotics/bifrost/pubsub"
)

// VerifStopJanitor stops the go-cache janitor goroutine that NewFloodSub
// started for the seen-message cache and clears the finalizer that would
// otherwise try to stop it a second time. Used by the C27/C28/C29 harnesses
// when they dispose of a FloodSub that lived inside a testing/synctest bubble
// (the bubble cannot end while the janitor goroutine exists). Expiry of cache
// entries itself is untouched: Get still compares against the item expiry.
func VerifStopJanitor(ps pubsub.PubSub) {
	m := ps.(*FloodSub)
	c := m.seenMessages
	if c == nil {
		return
	}
	runtime.SetFinalizer(c, nil)
	// c is *cache.Cache{ *cache }; cache.janitor is *janitor{Interval; stop chan bool}
	inner := reflect.ValueOf(c).Elem().Field(0).Elem()
	jf := inner.FieldByName("janitor")
	if !jf.IsValid() || jf.IsNil() {
		return
	}
	sf := jf.Elem().FieldByName("stop")
	stop := *(*chan bool)(unsafe.Pointer(sf.UnsafeAddr()))
	if stop == nil {
		return
	}
	stop <- true
	// forget the janitor so that nothing can stop it twice
	reflect.NewAt(jf.Type(), unsafe.Pointer(jf.UnsafeAddr())).Elem().Set(reflect.Zero(jf.Type()))
}

// VerifState is a sorted, pointer-free dump of the router state relevant to
// the pubsub properties: local channels with their subscription counts, the
// remote subscriptions per channel, the peer set, not yet started sessions,
// the number of de-duplication entries and queued publications.
func VerifState(ps pubsub.PubSub) string {
	m := ps.(*FloodSub)
	m.mtx.Lock()
	defer m.mtx.Unlock()
	var chs []string
	for chid, subs := range m.channels {
		nh := 0
		for s := range subs {
			s.mtx.Lock()
			nh += len(s.handlers)
			s.mtx.Unlock()
		}
		chs = append(chs, fmt.Sprintf("%s:%d subs/%d handlers", chid, len(subs), nh))
	}
	sort.Strings(chs)
	var pcs []string
	for chid, tm := range m.peerChannels {
		var ps []string
		for tpl := range tm {
			ps = append(ps, fmt.Sprintf("%s/%d", tpl.PeerID.String(), tpl.LinkID))
		}
		sort.Strings(ps)
		pcs = append(pcs, chid+"<-"+strings.Join(ps, ","))
	}
	sort.Strings(pcs)
	return fmt.Sprintf("channels=%v peerChannels=%v peers=%d inc=%d seen=%d queued=%d",
		chs, pcs, len(m.peers), len(m.incSessions), m.seenMessages.ItemCount(), len(m.publishCh))
}

// VerifLocalChannel reports whether the router currently has an entry for the
// local channel and how many subscriptions it holds.
func VerifLocalChannel(ps pubsub.PubSub, chid string) (present bool, subs int) {
	m := ps.(*FloodSub)
	m.mtx.Lock()
	defer m.mtx.Unlock()
	s, ok := m.channels[chid]
	return ok, len(s)
}

// VerifPeerQueue reports the occupancy and capacity of the send queue of the
// (single) peer session of the router; ok is false if there is not exactly one.
func VerifPeerQueue(ps pubsub.PubSub) (n, c int, ok bool) {
	m := ps.(*FloodSub)
	m.mtx.Lock()
	defer m.mtx.Unlock()
	if len(m.peers) != 1 {
		return 0, 0, false
	}
	for _, p := range m.peers {
		return len(p.packetCh), cap(p.packetCh), true
	}
	return 0, 0, false
}
