//go:build verif

package floodsub

import (
	"context"
	"io"

	"github.com/aperturerobotics/bifrost/peer"
	"github.com/aperturerobotics/bifrost/pubsub"
	stream_packet "github.com/aperturerobotics/bifrost/stream/packet"
)

// VerifC40MaxMessageSize exposes the configured message limit.
const VerifC40MaxMessageSize = maxMessageSize

// VerifC40ReadPump runs a stream handler's read pump (RecvMsg + processPacket
// for every framed packet) over rwc on the calling goroutine until it
// returns. Afterwards the router's transient state is reset so that the next
// call starts from the same state: publish queue drained, seen-cache flushed,
// peer subscriptions cleared. It returns the number of peer channel
// subscriptions and queued publications the input produced.
func VerifC40ReadPump(ps pubsub.PubSub, rwc io.ReadWriteCloser, remote peer.ID) (peerChannels, published int) {
	m := ps.(*FloodSub)
	ctx, cancel := context.WithCancel(context.Background())
	defer cancel()
	sh := &streamHandler{
		m:         m,
		le:        m.le,
		tpl:       pubsub.PeerLinkTuple{PeerID: remote, LinkID: 1},
		peerID:    remote,
		packetCh:  make(chan *Packet, 32),
		stream:    stream_packet.NewSession(rwc, maxMessageSize),
		ctx:       ctx,
		ctxCancel: cancel,
	}
	defer func() {
		for len(m.publishCh) > 0 {
			<-m.publishCh
			published++
		}
		m.seenMessages.Flush()
		m.mtx.Lock()
		peerChannels = len(m.peerChannels)
		for k := range m.peerChannels {
			delete(m.peerChannels, k)
		}
		m.mtx.Unlock()
	}()
	sh.readPump(ctx)
	return
}
