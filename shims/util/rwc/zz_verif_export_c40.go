//go:build verif

package rwc

import (
	"context"
	"io"
	"net"
)

// VerifC40NewPacketConnNoPump builds a PacketConn exactly as NewPacketConn
// does but leaves starting the receive pump to the caller, so that the pump
// can be run under recover.
func VerifC40NewPacketConnNoPump(ctx context.Context, rwc io.ReadWriteCloser, laddr, raddr net.Addr, maxPacketSize uint32, bufferPacketN int) *PacketConn {
	ctx, ctxCancel := context.WithCancel(ctx)
	if bufferPacketN <= 0 {
		bufferPacketN = 10
	}
	return &PacketConn{
		ctx:           ctx,
		ctxCancel:     ctxCancel,
		rwc:           rwc,
		laddr:         laddr,
		raddr:         raddr,
		maxPacketSize: maxPacketSize,
		packetCh:      make(chan []byte, bufferPacketN),
	}
}

// VerifC40RxPump runs the receive pump until it returns.
func (p *PacketConn) VerifC40RxPump() error { return p.rxPump() }
