#!/bin/bash
# run-all.sh [tier]: runs every claimed check once and prints a summary line per check.
cd "$(dirname "$0")"
TIER=${1:-quick}
for id in $(python3 -c "import json;print(' '.join(c['property_id'] for c in json.load(open('MANIFEST.json'))['checks']))"); do
  s=$(date +%s)
  out=$(./check $id --tier $TIER 2>&1); rc=$?
  e=$(( $(date +%s) - s ))
  echo "$id rc=$rc ${e}s $(echo "$out" | grep -c '^VIOLATION') viol $(echo "$out" | grep -c '^KNOWN-FINDING') known :: $(echo "$out" | tail -1 | cut -c1-120)"
done
