#!/bin/bash
# racepass.sh [<ID>...]: the separate free-running race-detector pass (DESIGN §2.1(c)).
# Under the cooperative scheduler every hand-off is a happens-before edge, so the race
# detector is blind there; this pass builds each check with -race and runs
#   * controlled-scheduler (vsched) checks with VERIF_FREERUN=N: every scenario body is
#     executed N times WITHOUT the scheduler (real goroutines and locks, virtual time);
#   * enum / hist checks as they are (their harnesses already run free) with a short budget.
# Nothing is decided here and no evidence file is touched: the pass validates the
# assumption "scheduling points at synchronisation operations suffice" (data-race freedom
# between them). Reports are classified by where the two conflicting accesses are:
#   repo      - both/either access in bifrost (or util/controllerbus) code  -> listed
#   harness   - accesses only in /verif/harness code                           -> listed separately
# Output: race-pass.json (summary) and .work/race/<ID>/race.* (raw reports). Exit 0 always
# unless the build fails (2).
set -u
ROOT=$(cd "$(dirname "$0")" && pwd)
. "$ROOT/env.sh"
IDS="$@"
[ -n "$IDS" ] || IDS=$(ls "$ROOT/checks.d" | sed 's/.json//')
N=${VERIF_FREERUN_N:-25}
"$ROOT/setup.sh" --ensure >/dev/null 2>&1
for ID in $IDS; do
  lc=$(echo $ID | tr A-Z a-z)
  W="$ROOT/.work/race/$ID"; rm -rf "$W"; mkdir -p "$W"
  "$ROOT/gen-overlay.sh" "$W" || { echo "RACEPASS-ERROR $ID: instrumentation failed"; continue; }
  ( cd "$ROOT/harness" && go test -race -c -tags verif -overlay "$W/overlay.json" -vet=off -o "$W/t.test" "./props/$lc" >"$W/build.log" 2>&1 ) || { echo "RACEPASS-ERROR $ID: build failed"; tail -5 "$W/build.log"; continue; }
  eng=$(python3 -c "import json;print(json.load(open('$ROOT/checks.d/$ID.json'))['engine'])")
  fr=0; [ "$eng" = vsched ] && fr=$N
  # mixed checks (hist/enum + a vsched part) get both: first as they are, then free-running
  ( cd "$ROOT/harness/props/$lc" && GORACE="log_path=$W/race halt_on_error=0" VERIF_RACEPASS=1 VERIF_FREERUN=$fr VERIF_BUDGET_S=${VERIF_RACE_BUDGET_S:-90} VERIF_WORKERS=4 timeout 900 "$W/t.test" -test.run "^Test${ID}\$" -test.timeout 14m -test.count 1 >"$W/out.log" 2>&1 )
  if [ "$eng" != vsched ] && grep -q "vsync.Explore\|RunScenarios\|ExploreS1" "$ROOT/harness/props/$lc"/*.go; then
    ( cd "$ROOT/harness/props/$lc" && GORACE="log_path=$W/race2 halt_on_error=0" VERIF_RACEPASS=1 VERIF_FREERUN=$N VERIF_BUDGET_S=${VERIF_RACE_BUDGET_S:-90} VERIF_WORKERS=4 timeout 900 "$W/t.test" -test.run "^Test${ID}\$" -test.timeout 14m -test.count 1 >"$W/out2.log" 2>&1 )
  fi
  rm -f "$W/t.test"
  n=$(cat "$W"/race*.[0-9]* 2>/dev/null | grep -c "WARNING: DATA RACE")
  echo "RACEPASS $ID engine=$eng freerun=$fr reports=$n done=$(grep -c RACEPASS-DONE "$W"/out*.log | tr '\n' ' ')"
done
python3 "$ROOT/racepass-summary.py" $IDS
